"""Shared helpers: paths, builds, running the two sides of the correspondence."""
import os, subprocess, shutil, sys, time, json, re, hashlib, threading

VERIF = os.path.dirname(os.path.dirname(os.path.dirname(os.path.abspath(__file__))))
REPO = os.environ.get("VERIF_REPO", "/repo")
LEAN = os.path.join(VERIF, "lean")
HARNESS = os.path.join(VERIF, "harness")
WORK = os.path.join(VERIF, "work")
DRIVER = os.path.join(LEAN, ".lake", "build", "bin", "driver")
# Seeded-change runs (bin/seedcheck, VERIF_REPO set) may be frozen against concurrent edits of the Lean
# sources: a frozen copy of the driver is used and Lean builds are skipped (the model is not what changes).
FROZEN = REPO != "/repo" and os.path.exists("/tmp/sw/FREEZE") and os.path.exists("/tmp/sw/driver")
if FROZEN:
    DRIVER = "/tmp/sw/driver"
FLAVOURS = ["async-std", "tokio"]          # every binary also contains the sync API
FEATURE = {"async-std": "rt-async-std", "tokio": "rt-tokio", "sync": None}

ENV = dict(os.environ, CARGO_NET_OFFLINE="true")


def log(*a):
    print(*a, file=sys.stderr, flush=True)


def run(cmd, cwd=None, timeout=None, env=None, input=None):
    p = subprocess.run(cmd, cwd=cwd, timeout=timeout, env=env or ENV, input=input,
                       stdout=subprocess.PIPE, stderr=subprocess.STDOUT, text=True)
    return p.returncode, p.stdout


def drive_bin(flavour):
    return os.path.join(HARNESS, "target", flavour, "debug", "drive")


_build_lock = threading.Lock()


HARNESS_SRC = HARNESS
if REPO != "/repo":
    HARNESS = os.path.join(WORK, "harness-" + hashlib.sha1(REPO.encode()).hexdigest()[:10])


def _alt_harness():
    """For VERIF_REPO != /repo (self-tests against a scratch copy): a private copy of the harness
    crate whose path dependency points at that copy."""
    alt = HARNESS
    os.makedirs(alt, exist_ok=True)
    for name in ("src", ".cargo"):
        shutil.rmtree(os.path.join(alt, name), ignore_errors=True)
        shutil.copytree(os.path.join(HARNESS_SRC, name), os.path.join(alt, name))
    shutil.copy(os.path.join(HARNESS_SRC, "Cargo.lock"), alt)
    toml = open(os.path.join(HARNESS_SRC, "Cargo.toml")).read().replace('path = "/repo"', f'path = "{REPO}"')
    open(os.path.join(alt, "Cargo.toml"), "w").write(toml)


SHIM = os.path.join(VERIF, "harness", "target", "failmmap.so")


def build_shim():
    """LD_PRELOAD shim that makes file-backed shared mappings fail (harness/shim/failmmap.c)."""
    src = os.path.join(VERIF, "harness", "shim", "failmmap.c")
    if os.path.exists(SHIM) and os.path.getmtime(SHIM) >= os.path.getmtime(src):
        return SHIM
    os.makedirs(os.path.dirname(SHIM), exist_ok=True)
    rc, o = run(["gcc", "-shared", "-fPIC", "-O1", "-o", SHIM + ".tmp", src, "-ldl"], cwd=VERIF, timeout=120)
    if rc != 0:
        log(o[-2000:])
        raise SystemExit("cannot build the mmap shim")
    os.replace(SHIM + ".tmp", SHIM)
    return SHIM


def build_harness(flavours):
    """Rebuild the harness (and therefore cacache from REPO's working tree) for each flavour."""
    build_shim()
    if REPO != "/repo":
        _alt_harness()
    out = {}
    for fl in flavours:
        cmd = ["cargo", "build", "--offline", "--target-dir", os.path.join("target", fl)]
        if FEATURE[fl]:
            cmd += ["--features", FEATURE[fl]]
        t = time.time()
        rc, o = run(cmd, cwd=HARNESS, timeout=1800)
        out[fl] = (rc, o, time.time() - t)
        if rc != 0:
            log(o[-4000:])
            raise SystemExit(f"harness build failed for {fl}")
    return out


def build_lean(targets):
    if FROZEN:
        return 0, "frozen", 0.0
    t = time.time()
    rc, o = run(["lake", "build"] + targets, cwd=LEAN, timeout=3600)
    return rc, o, time.time() - t


def scratch_root():
    d = os.path.join(WORK, str(os.getpid()))
    os.makedirs(d, exist_ok=True)
    return d


def cleanup_scratch():
    shutil.rmtree(os.path.join(WORK, str(os.getpid())), ignore_errors=True)


def hx(b: bytes) -> str:
    return "x" + b.hex()


def unhx(t: str) -> bytes:
    assert t.startswith("x"), t
    return bytes.fromhex(t[1:])
