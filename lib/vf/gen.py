"""Generators: every random choice comes from one PRNG seeded by VERIF_SEED."""
import random, json, base64
from . import layout as L
from .common import hx

MMAP = 1024 * 1024


class Rng(random.Random):
    def pick(self, xs):
        return xs[self.randrange(len(xs))]

    def chance(self, p):
        return self.random() < p


KEYS_PLAIN = [b"k", b"key", b"hello", b"a/b", b"my-key", b"x" * 40]
KEYS_HOSTILE = [
    b"", b" ", b"\t", b"a\tb", b"line\nbreak", b"cr\rlf\r\n", b'quo"te', b"back\\slash", b"nul\x00byte",
    b"\x01\x02\x1f", b"\x7f", "é".encode(), "é".encode(), "ÅÅ".encode(), "日本語".encode(),
    "😀".encode(), " sep".encode(), b"../x", b"../../etc/passwd", b"/abs/path", b"a/../b", b".", b"..",
    b"KEY", b"Key", b"key ", b"index-v5", b"content-v2/sha256/aa/bb/cc", b"k" * 4096,
    "caf\u0065\u0301".encode(), "\U0001F468\u200d\U0001F469\u200d\U0001F467".encode(), "v\ufe0f".encode(),
    "line\u2028sep\u0085".encode(), "\u202eright-to-left".encode(), b"esc\x1b[0m",
]
ALGOS = L.ALGOS


def key(r, hostile=0.3):
    if r.chance(hostile):
        return r.pick(KEYS_HOSTILE)
    if r.chance(0.5):
        return r.pick(KEYS_PLAIN)
    n = r.pick([1, 2, 3, 5, 8, 13])
    return bytes(r.pick(b"abcdefghijklmnopqrstuvwxyz0123456789-_") for _ in range(n))


SMALL_SIZES = [0, 1, 2, 3, 7, 8, 9, 15, 16, 17, 31, 32, 33, 63, 64, 65, 100, 255, 256]
EDGE_SIZES = [1023, 1024, 1025, 8191, 8192, 8193, 16383, 16384, 16385, 20000, 70001]
BIG_SIZES = [MMAP - 1, MMAP, MMAP + 1]


def size(r, big=0.0, edge=0.15):
    if r.chance(big):
        return r.pick(BIG_SIZES)
    if r.chance(edge):
        return r.pick(EDGE_SIZES)
    return r.pick(SMALL_SIZES)


def data(r, n=None, big=0.0):
    if n is None:
        n = size(r, big)
    mode = r.randrange(4)
    if mode == 0:
        return bytes(n)
    if mode == 1:
        return (b"abcdefghij" * (n // 10 + 1))[:n]
    return r.randbytes(n)


def chunking(r, d):
    """Split d into chunks: one, many, single bytes (small data), with empty chunks sprinkled in."""
    n = len(d)
    mode = r.randrange(6)
    if mode == 0 or n == 0:
        cs = [d]
    elif mode == 1:
        k = r.randrange(1, min(n, 6) + 1)
        cuts = sorted(r.randrange(0, n + 1) for _ in range(k))
        cs = [d[a:b] for a, b in zip([0] + cuts, cuts + [n])]
    elif mode == 2 and n <= 64:
        cs = [d[i:i + 1] for i in range(n)]
    elif mode == 3:                      # decreasing
        cs, i, step = [], 0, max(1, n // 2)
        while i < n:
            cs.append(d[i:i + step]); i += step; step = max(1, step // 2)
    elif mode == 4:
        h = n // 2
        cs = [d[:h], d[h:]]
    else:
        # a short header, then everything else in one piece (and, for larger data, a short trailer): small and large
        # writes on one handle - any buffering of the small ones must not let the large ones overtake them
        h = r.pick([1, 7, 16, 100])
        cs = [d[:h], d[h:]] if n <= 2 * h + 8 else [d[:h], d[h:n - 8], d[n - 8:]]
    if r.chance(0.3):
        cs.insert(r.randrange(len(cs) + 1), b"")
    return cs


def jvalue(r, depth=0):
    """A type-directed JSON value without floats (integers at the 64-bit edges, hostile strings)."""
    kinds = ["null", "bool", "int", "str", "dec"] + (["arr", "obj"] if depth < 4 else [])
    k = r.pick(kinds)
    if k == "dec":
        # short decimals (at most 6 significant digits), over the whole exponent range of binary64:
        # JSON text carries them exactly, so they must come back exactly
        mant = r.pick([1, 5, 15, 25, 1234, 6626, 999999, r.randrange(1, 10**6)])
        exp = r.pick([0, -1, -2, 1, 3, -7, 10, 22, 23, -18, -19, -34, 100, -305, 300, r.randrange(-300, 300)])
        return float(f"{'-' if r.chance(0.2) else ''}{mant}e{exp}")
    if k == "null":
        return None
    if k == "bool":
        return r.chance(0.5)
    if k == "int":
        return r.pick([0, 1, -1, 42, 2**31, -2**31, 2**53, 2**63 - 1, -2**63, 2**64 - 1, r.randrange(-10**6, 10**6)])
    if k == "str":
        return r.pick(["", "a", "hello world", 'q"uote', "back\\slash", "tab\tnl\ncr\r", "\x00\x01\x1f", "\x7f",
                       "é", "日本", "😀", " ", "a" * 100, "/", "\b\f"])
    if k == "arr":
        return [jvalue(r, depth + 1) for _ in range(r.randrange(0, 4))]
    return {r.pick(["a", "b", "k", "é", "", "z z", "key"]): jvalue(r, depth + 1) for _ in range(r.randrange(0, 4))}


def opts_tokens(algo=None, size=None, sri=None, time=None, meta=None, raw=None):
    t = []
    t.append(f"algo={algo}" if algo else "algo=-")
    t.append(f"size={size}" if size is not None else "size=-")
    t.append(f"sri={hx(sri.encode())}" if sri is not None else "sri=-")
    t.append(f"time={time}" if time is not None else "time=-")
    t.append(f"meta={hx(L.render_json(meta).encode())}" if meta is not _NOMETA else "meta=-")
    t.append(f"raw={hx(raw)}" if raw is not None else "raw=-")
    return " ".join(t)


_NOMETA = object()
NOMETA = _NOMETA


class Ids:
    def __init__(self):
        self.n = 0

    def new(self, p):
        self.n += 1
        return f"{p}{self.n}"
