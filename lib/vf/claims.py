"""What is claimed per property: text for MANIFEST.json."""
TB = ("Trusted: Lean 4.33 kernel; axioms propext / Classical.choice / Quot.sound only (audited per theorem on every run); "
      "the hand-written model (lean/Cacache), tied to /repo by the correspondence run (harness, driver, generators, "
      "canonicaliser, Python monitors — differential testing, sees what its generators reach); ")

CLAIMS = {
 "C01": dict(
    text="Theorems (Props/C01): for every filesystem state and every answer the filesystem can give, a successful "
         "read_hash / read / streamed read + check / checked copy-link-reflink hands out only bytes that pass the integrity "
         "check of the requested address (AllCallsR: quantifies over all answers, hence all damage, fault plans, "
         "interleavings); with non-colliding digests on the two strings involved these are exactly the stored bytes. "
         "Correspondence: every checked retrieval entry point of both API flavours on damaged content files, model vs "
         "real library, plus a hashlib monitor.",
    note=TB + "digest functions are a parameter H; 'exactly the stored bytes' needs H (composed with base64) injective on "
         "{stored, returned}; short reads of regular files are modelled as full reads in the driver, the theorems cover any "
         "buffer sizes.",
    technique="Lean 4 proof over all filesystem answers (AllCallsR) + differential correspondence"),
 "C05": dict(
    text="Theorems (Props/C05): for any initial bucket bytes and any history of appended records, lookup is decided by the "
         "last record of that key (entry, or absent for a tombstone); records of other keys are irrelevant; induction over "
         "histories via the cut lemma, generic in the codec laws. Correspondence: random histories of writes / removals "
         "through all entry points and flavours against the model and a dictionary monitor.",
    note=TB + "the index theorems are stated for any codec satisfying Codec.Laws; that the serde/SHA-256 codec is an "
         "instance is proved separately (Lemmas/Record) or, until then, validated by the C17 correspondence.",
    technique="Lean 4 proof by induction over histories (cut lemma) + differential correspondence"),
 "C06": dict(
    text="Theorems (Props/C06): a newline cuts a bucket into independently decoded halves; arbitrary newline-free bytes "
         "between two newlines change the decoded records by at most their own decoding; invalid UTF-8 lines are skipped; a "
         "torn tail is terminated by the next append; every reported record is the decoding of one line (no forgery). "
         "Correspondence: reference-encoded buckets damaged in 12 ways, lookups/listings in both flavours before and after "
         "a further append, judged by the Python reference decoder and the model.",
    note=TB + "'written verbatim by a successful insert' additionally needs SHA-256 second-preimage resistance (stated, not "
         "assumed by any theorem).",
    technique="Lean 4 proof (algebraic laws of the line reader) + differential correspondence"),
 "C10": dict(
    text="Theorems (Props/C10): per bucket, the records kept by the listing have pairwise distinct keys; every listed "
         "entry is what a lookup of its key returns; everything a lookup finds is listed (for records whose integrity "
         "parses — all that insert writes). Correspondence: listings compared item by item with lookups after every step "
         "of random histories.",
    note=TB + "the hash-set iteration order is abstracted to a list order; listing walks files while lookup hashes the key: "
         "agreement across buckets relies on records sitting in the bucket of their key (true of everything insert writes).",
    technique="Lean 4 proof (list algebra of de-duplication) + differential correspondence"),
 "C15": dict(
    text="Theorems (Props/C15): every call every write / insert / removal / clear / link_to program can ever issue is aimed "
         "inside the cache directory (extractions: at the destination only), read-only operations issue no mutating call "
         "and leave every state unchanged, a key reaches paths only through its SHA-1 — AllCalls quantifies over all "
         "answers, so all states, faults and schedules. Correspondence: hostile-key programs with dumps of the "
         "directories next to the cache before/after.",
    note=TB + "create_dir_all may create missing ancestors of the cache directory itself; the syscall-level observation "
         "(strace) is a planned extra leg.",
    technique="Lean 4 proof over all call answers (AllCalls) + differential correspondence"),
 "C18": dict(
    text="Theorems (Props/C18): if a checked extraction reports the integrity error the filesystem is exactly as before "
         "(for every state, kind, destination; by address and by key); success implies the verification pass saw bytes "
         "passing the check and returns their count; a missing key yields not-found; the destination then holds the "
         "content bytes. Correspondence: all extraction entry points on pristine and damaged content.",
    note=TB + "reflink success cannot be executed on this ext4 sandbox (modelled, env.reflinkOK); verification and the "
         "following copy read the file twice — a concurrent modification in between is outside the statement.",
    technique="Lean 4 proof (run semantics + read-only frame) + differential correspondence"),
}

PENDING = {}
