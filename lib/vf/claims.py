"""What is claimed per property: text for MANIFEST.json."""
TB = ("Trusted: Lean 4.33 kernel; axioms propext / Classical.choice / Quot.sound only (audited per theorem on every run); "
      "the hand-written model (lean/Cacache), tied to /repo by the correspondence run (harness, driver, generators, "
      "canonicaliser, Python monitors — differential testing, sees what its generators reach); ")

CLAIMS = {
 "C01": dict(
    text="Theorems (Props/C01): for every filesystem state and every answer the filesystem can give, a successful "
         "read_hash / read / streamed read + check / checked copy-link-reflink hands out only bytes that pass the integrity "
         "check of the requested address (AllCallsR: quantifies over all answers, hence all damage, fault plans, "
         "interleavings); with non-colliding digests on the two strings involved these are exactly the stored bytes. "
         "Correspondence: every checked retrieval entry point of both API flavours on damaged content files, model vs "
         "real library, plus a hashlib monitor.",
    note=TB + "digest functions are a parameter H; 'exactly the stored bytes' needs H (composed with base64) injective on "
         "{stored, returned}; short reads of regular files are modelled as full reads in the driver, the theorems cover any "
         "buffer sizes.",
    technique="Lean 4 proof over all filesystem answers (AllCallsR) + differential correspondence"),
 "C05": dict(
    text="Theorems (Props/C05): for any initial bucket bytes and any history of appended records, lookup is decided by the "
         "last record of that key (entry, or absent for a tombstone); records of other keys are irrelevant; induction over "
         "histories via the cut lemma, generic in the codec laws. Correspondence: random histories of writes / removals "
         "through all entry points and flavours against the model and a dictionary monitor. PROGRAM LEVEL (index_refines_map, "
         "Lemmas/Refine): any sequence of the real programs insert / delete / find, run on the model filesystem from a "
         "healthy index (the empty cache is one), each with its own clock answer, answers exactly like the abstract map "
         "key -> entry, keeps the abstraction in step and the index healthy - total correctness included, SHA-1 collisions "
         "of keys allowed; corollaries program_lookup_returns_last_insert / _absent_after_removal / _ignores_other_keys.",
    note=TB + "the index theorems are stated for any codec satisfying Codec.Laws on a set W of records; that the serde/SHA-256 "
         "codec is an instance with W = Rec.WF is PROVED (Lemmas/CodecLaws, any hash function) and instantiated as "
         "lookup_last_wins_cacache / lookup_never_written_cacache.",
    technique="Lean 4 proof by induction over histories (cut lemma) + differential correspondence"),
 "C06": dict(
    text="Theorems (Props/C06): a newline cuts a bucket into independently decoded halves; arbitrary newline-free bytes "
         "between two newlines change the decoded records by at most their own decoding; invalid UTF-8 lines are skipped; a "
         "torn tail is terminated by the next append; every reported record is the decoding of one line (no forgery). "
         "Correspondence: reference-encoded buckets damaged in 12 ways, lookups/listings in both flavours before and after "
         "a further append, judged by the Python reference decoder and the model.",
    note=TB + "'written verbatim by a successful insert' additionally needs SHA-256 second-preimage resistance (stated, not "
         "assumed by any theorem).",
    technique="Lean 4 proof (algebraic laws of the line reader) + differential correspondence"),
 "C10": dict(
    text="Theorems (Props/C10): per bucket, the records kept by the listing have pairwise distinct keys; every listed "
         "entry is what a lookup of its key returns; everything a lookup finds is listed, unconditionally (records whose "
         "integrity does not parse are dropped by both, before de-duplication). Props/C10x (Lemmas/ListRefine): on a tidy "
         "healthy cache the listing program returns, for every bucket, exactly the live entries of the abstract index map - "
         "after ANY operation history from the empty cache. Correspondence: listings compared item by item with lookups after every step "
         "of random histories.",
    note=TB + "the hash-set iteration order is abstracted to a list order; listing walks files while lookup hashes the key: "
         "agreement across buckets relies on records sitting in the bucket of their key (true of everything insert writes).",
    technique="Lean 4 proof (list algebra of de-duplication) + differential correspondence"),
 "C15": dict(
    text="Theorems (Props/C15): every call every write / insert / removal / clear / link_to program can ever issue is aimed "
         "inside the cache directory (extractions: at the destination only), read-only operations issue no mutating call "
         "and leave every state unchanged, a key reaches paths only through its SHA-1 — AllCalls quantifies over all "
         "answers, so all states, faults and schedules. Correspondence: hostile-key programs with dumps of the "
         "directories next to the cache before/after.",
    note=TB + "create_dir_all may create missing ancestors of the cache directory itself; the syscall-level observation "
         "(strace) is a planned extra leg.",
    technique="Lean 4 proof over all call answers (AllCalls) + differential correspondence"),
 "C18": dict(
    text="Theorems (Props/C18): if a checked extraction reports the integrity error the filesystem is exactly as before "
         "(for every state, kind, destination; by address and by key); success implies the verification pass saw bytes "
         "passing the check and returns their count; a missing key yields not-found; the destination then holds the "
         "content bytes. Correspondence: all extraction entry points on pristine and damaged content.",
    note=TB + "reflink success cannot be executed on this ext4 sandbox (modelled, env.reflinkOK); verification and the "
         "following copy read the file twice — a concurrent modification in between is outside the statement.",
    technique="Lean 4 proof (run semantics + read-only frame) + differential correspondence"),
}

CLAIMS.update({
 "C02": dict(
    text="Theorems (Props/C02, from the demonic wp `wpD` of the whole write): whenever a write answers ok - healthy run and "
         "every fault plan - the answer is the digest of all bytes fed (declared integrity for keyed writers), the "
         "content path exists, the store is valid, and the key's bucket is the old bytes plus the whole new record with "
         "that integrity and byte count; reading that state back by address and by key yields exactly the data (given a "
         "non-colliding digest on the two strings involved; the record-codec laws are proved, read_back_by_key_cacache). "
         "END TO END (write_then_read_by_key, faulty_write_then_read_by_key, write_hash_then_read): for every flavour, key, "
         "well-formed options, chunking and initial state with a valid store - if the write answers ok (healthy run or any "
         "fault plan), the answer is the digest of the bytes fed and read-by-key and read-by-address in the resulting state "
         "return exactly those bytes (hypotheses: a regular file sits at the address, the digest does not collide on it). "
         "REFINEMENT WITH TOTAL CORRECTNESS (cache_refines_map, Lemmas/CacheRefine, 1950 lines): any sequence of keyed writes "
         "(any flavour / options / chunking, mapped or plain writer), reads, removals, lookups, index insertions and by-address "
         "writes / reads / exists / remove_hash, run as programs from a healthy cache (the empty cache is one), answers like "
         "the abstract state (key -> entry, address -> bytes) - every write succeeds and leaves no temp file; corollaries "
         "read_after_write / readHash_after_writeHash (exactly the data, NO collision hypothesis) and "
         "get_returns_last_put_data (after any later operations that neither write the key nor remove the address). Correspondence: all write "
         "entry points x sizes x chunkings x algorithms against the model, hashlib monitor on addresses and read-back.",
    note=TB + "`_partial`: that a healthy run DOES answer ok on every healthy filesystem is exercised by the correspondence "
         "only. The record codec's round trip is a theorem (Lemmas/JsonRT, Lemmas/Record, Lemmas/CodecLaws) for records "
         "in Rec.WF: what Rust's types guarantee plus JSON nesting < 127 (the excluded point is known finding F9).",
    technique="Lean 4 proof (demonic weakest precondition over filesystem calls) + differential correspondence"),
 "C03": dict(
    text="Theorems (Props/C03): ContentValid (every regular file at a content address hashes to it, for an arbitrary "
         "digest function) is preserved by every write program - every entry point, chunking, declared size, flavour - at "
         "EVERY kill point with the in-flight call torn at ANY byte (Prog.crash n t, all n t), after completion and under "
         "every fault plan; only the rename of a temp file whose bytes are exactly what was hashed can create a content "
         "file. Tie: real mutation-syscall skeleton = model call trace per op (strace), real SIGKILL at every mutating "
         "syscall followed by inspection with a fresh process, hashlib monitor on dumped content.",
    note=TB + "kernel assumptions: rename(2) atomic, a failed/short write to the temp file is followed by an error "
         "(execFail), page cache survives a process kill (power loss not modelled); strace's kill lands on syscall entry "
         "of the main thread (sync API).",
    technique="Lean 4 proof (invariant at every crash cut via wpD) + syscall-skeleton correspondence + real kill sweeps"),
 "C04": dict(
    text="Theorems (Props/C04): killed at any call of a keyed write / index insert / removal, with the append torn at any "
         "byte (or failing after any partial write), the key's bucket is the old bytes plus a PREFIX of the one new "
         "frame and the content store is valid; for any such prefix every reader decodes exactly the old records or "
         "exactly old+new (never a mixture), other keys are found as before, and after any continuation history the torn "
         "bytes are inert; phases before the index insert never aim at the index area (content first). END TO END "
         "(insert_crash_lookup, remove_crash_lookup, keyed_write_crash_lookup and their *_fault_lookup twins, for cacache's "
         "own record format and any hash function): after a kill at ANY call of an index insertion, a removal or a whole keyed "
         "write, torn at ANY byte - or under any fault plan - the store is valid and every lookup in the key's bucket answers "
         "exactly as before the operation or exactly as after the complete append of its one well-formed record; keys other "
         "than the operation's key answer as before; keyed_write_ok_is_new ties 'new' to what a successful write leaves. "
         "RECOVERABILITY (Props/C04x, Lemmas/CrashRefine): ANY operation killed at any call / torn at any length leaves a "
         "healthy cache whose abstract state is old, new, or (keyed write) old index over a store that already holds the new "
         "content; any later operation sequence answers exactly as the abstract map says from there; a later write of any key "
         "succeeds and reads back; the interrupted key reads its old value or exactly the new data. REMOVALS, CLEAR, LINK COMMIT "
         "(Lemmas/CrashMore): remove_fully killed anywhere leaves a healthy cache in the old, the dangling (content gone, entry "
         "still there) or the new abstract state, a retry ends where an uninterrupted removal ends, later writes work; clear "
         "killed anywhere - every order of the children, every tear of remove_dir_all - leaves a healthy sub-cache that a later "
         "clear empties; the link_to commit killed anywhere leaves the old node or the new link at the address, the target "
         "untouched, the index old or old + the one new entry (removeFully_crash, removeFully_retry_completes, clear_crash, "
         "lcommit_crash, crash_then_continue_ext). Tie: torn-append "
         "buckets at sampled byte lengths incl. multi-byte UTF-8 via the reference encoder, real SIGKILL sweeps with "
         "old-or-new / other-keys / visible=>readable / later-write monitors.",
    note=TB + "TornLaws.prefix_none (a strict prefix of a record line does not decode) is PROVED for the concrete codec and "
         "EVERY hash function (Rec.prefix_none: a cut JSON object never parses - parser extension-stability), so "
         "torn_entries_cacache / torn_lookup_cacache / torn_then_history_cacache carry no codec or hash hypothesis; records "
         "must be Rec.WF (Rust's types + nesting < 127); Settled b0 holds for every bucket ending in a whole record "
         "(settled_cacache).",
    technique="Lean 4 proof (wpD at every crash cut + line-reader algebra) + real kill sweeps"),
 "C07": dict(
    text="Theorems (Props/C07, Prog.interleave: any number of processes, any schedule, calls atomic): every bucket is at "
         "all times its initial bytes followed by WHOLE framed records in append order - for any mix of index inserts, "
         "removals, lookups, listings, content removals and writer phases - so no reader decodes a partial or spliced "
         "record and no append is lost (with the record codec proved: conc_reads_whole_records_cacache); the content store "
         "stays valid under every interleaving of any number of WHOLE WRITERS (mapped or plain, keyed or by address, both "
         "flavours) and quiet operations (inserts, removals, remove_hash, remove_fully, clear, link commits, all reads) - "
         "a rely/guarantee proof over private temp files (conc_content_valid, Lemmas/Concurrent); every call stays inside "
         "the cache. RESULTS (Props/C07x, Lemmas/Linearize): ANY number of concurrent index operations - insert, delete, "
         "find of any keys, any mix - from a healthy index: after every schedule there is ONE duplicate-free serial history "
         "of the abstract map key -> entry containing exactly the finished processes, each with exactly the answer it "
         "returned, ending in the abstraction of the current state (index_ops_linearizable), and running the real programs "
         "sequentially in that order returns the same answers and the same lookups afterwards (index_ops_serializable); "
         "one inserter / remover and one lookup of any key, with NO hypothesis on the bucket: the lookup answers as alone "
         "before or alone after, and both results plus the final filesystem equal one of the two serial runs "
         "(lookup_linearizable_insert/delete, insert_find_serial); a lookup among any processes answers from a snapshot "
         "of whole records that is a prefix of the bucket's history (lookup_snapshot). LISTERS (Lemmas/LinearizeLs): any number of "
         "index operations next to ONE lister on a warm index are serializable under every schedule - a serial run of the real "
         "programs gives the same answers (a listing up to the order of its items), lookups and listing afterwards "
         "(ls_among_writers_serializable), with the pair and three-operation shapes of the quantifier as corollaries "
         "(ls_linearizable_insert/delete, ls_insert_serial, ls_two_writers_serializable). THE TWO-STEP READ (Lemmas/LinearizeRead): a "
         "keyed read next to an index insertion / removal, next to remove_hash of any address, next to a WHOLE keyed writer: the reader "
         "answers as alone before or alone after; reader + insertion + remove_hash: one of four serial orders explains all three "
         "answers. TWO WHOLE MUTATORS (Lemmas/TwoWriters): writer || remove_hash, writer || writer (same key, same bytes included), "
         "writer || index operation, writer || writer || remove_hash: after every schedule the cache is healthy, no temp file is "
         "left, answers and abstract cache are those of a serial order. Tie: 6-12 real processes (sync+async API, both runtimes) hammering one cache with read/record/content "
         "monitors; strace check that an index insert is ONE write(2) on an O_APPEND descriptor (also multi-MiB); OBSERVER SWEEP: "
         "a writer / remover stopped on entry to each of its mutating system calls, every observer (lookup, read, list, "
         "exists, read_hash; sync+async) must answer as before or as after the operation.",
    note=TB + "the interleaving semantics takes one filesystem call as the atomic step and has no faults inside an "
         "interleaving (crashes/faults of a single writer: C03/C13); kernel atomicity of write(O_APPEND) and rename is "
         "assumed; temp names are modelled as a monotone counter (tempfile's random names: fresh by retry-on-EEXIST). "
         "Linearizability of RESULTS is proved for the index operations (insert / delete / find: one global order) and for ONE "
         "lister next to them on a warm index (the cold-cache lister is known finding F23); the two-step `read` and pairs / triples of whole mutators are proved in "
         "the 2-3 operation shapes of the quantifier (two writers of one key: no digest collision between their data; content "
         "paths that are symlinks excluded) - four processes (two listers, two inserters into different buckets) can produce listings "
         "that fit no serial order, which is outside C07's quantifier (2-3 operations).",
    technique="Lean 4 proof (invariants over all interleavings) + multi-process stress + syscall skeleton"),
 "C08": dict(
    text="Theorems (Props/C08): the decision logic of commit stated outright (integrity mismatch => integrity error, "
         "checked before size; size mismatch => size error carrying (wanted, actual); matching => ok recording the declared "
         "integrity); a declaration is checked by its STRONGEST algorithm (declaredOk_other_algorithm: first hash of another "
         "algorithm than the writer's => rejected whatever weaker hashes it lists; declaredOk_sound; accepted_resolves: an "
         "accepted declaration with one digest of that algorithm has the content path of the computed integrity, i.e. the "
         "key is readable - F22); the phases up to the checks never aim at the index area and the index insertion never returns an "
         "integrity/size error, hence for EVERY state a commit that reports either error left every index path untouched. TOTAL CORRECTNESS with a "
         "declared integrity (Props/C08x, Lemmas/DeclRefine): from any healthy cache, any flavour / chunking - a declaration the "
         "data does not satisfy => integrity error, abstract index unchanged (every lookup as before), healthy, tmp clean, "
         "keyed and by address; a satisfied declaration => ok with the declared integrity, the key maps to the entry "
         "carrying it, other keys untouched, and the key reads back the data when the declaration lists no second digest of "
         "the writer's algorithm (F24 otherwise: counter-example proved); whole programs with declared integrities refine "
         "the abstract cache (cache_refines_map_declared). "
         "Correspondence: prior state x declared size {none,=,<,>} x declared integrity {none, ok, wrong, other algo, "
         "multi-hash of the same algorithm ok / wrong, multi-hash naming a stronger algorithm with a wrong / an unverifiable "
         "digest} x chunking x flavour x keyed/by-address; after an accepted keyed commit the key must read back the data.",
    note=TB + "the returned integrity of a by-address commit is the computed one even if one was declared (as in the code).",
    technique="Lean 4 proof (decision logic + AllCalls area analysis + run semantics) + differential correspondence"),
 "C13": dict(
    text="Theorems (Props/C13, Prog.runFault over EVERY fault plan - any positions, any number, any error kind, partial "
         "writes): content store valid afterwards; the key's bucket is old bytes + at most a prefix of the new record "
         "(whole on success); an ok answer implies the content path exists and the record is appended whole (no false "
         "success); a read that answers ok passes the integrity check; a writer that never reaches the index phase leaves "
         "the index untouched; every call stays inside the cache. Props/C13x (Lemmas/CrashRefine): a keyed write under ANY "
         "fault plan leaves a healthy cache in an admissible abstract state (old / new / content published only), leaves "
         "every other key and address alone, and any later operation sequence answers as the abstract map says. TRUTHFUL SUCCESS "
         "(Lemmas/FaultStrict): an operation every one of whose calls turns an error answer into a non-ok result is `Strict`, "
         "and for a strict operation an ok result under ANY fault plan means no fault fired - result, filesystem and trace "
         "are the healthy run's (fault_ok_is_healthy); clear is strict, so clear answering ok leaves a healthy, tidy, EMPTY "
         "cache (clear_ok_truthful - the negation was defect F26 in the real code), for EVERY order of the directory's children "
         "(clear_any_order_fault); THE REMAINING OPERATIONS under every fault plan (Lemmas/FaultMore): checked extraction by "
         "address / key (error => filesystem unchanged, ok => the destination holds bytes that passed the check, nothing else "
         "changes), listing (read-only, a sublist of the healthy listing, every item genuine), full removal (ok => no later "
         "lookup finds the key; error => every key as before); remove_hash and index insertion with an "
         "explicit time are strict; with the clock's time exactly one error is tolerated, a failing clock read, which equals "
         "a clock reading 0 (delete_ok_clock); lookups and the writers are proved NOT strict (a missing bucket reads as empty; "
         "a failed rename over existing content is fine) - for those fault_success_is_truthful says what ok means. Tie: strace errno injection into every syscall class of "
         "write/read/metadata/copy/remove/list with result, post-state, retry and other-entry monitors.",
    note=TB + "retry-succeeds and no-panic are judged by the injection leg (impl-only monitor), not proved; the model's "
         "fault granularity is one model call = a group of syscalls.",
    technique="Lean 4 proof (demonic wp over all fault plans) + strace errno injection"),
 "C14": dict(
    text="Theorems (Props/C14): a writer that is opened, fed any chunks and dropped can only ever aim at the temp area - "
         "whatever the calls answer - so every index and content path is unchanged in the healthy run, at every kill "
         "point and under every fault plan; drop removes the temp file; the index area is aimed at only by the index phase "
         "of a commit that passed its checks (C08); TOTAL CORRECTNESS of a rejected commit (rejected_commit_changes_no_lookup): "
         "from any healthy cache a keyed write with a wrong declared size - any flavour, chunking, options - answers exactly "
         "the size-mismatch error, leaves the abstract index unchanged (every lookup of every key and every listing answer "
         "as before), a healthy cache, and nothing of the writer in tmp. Correspondence: writers dropped after 0..all chunks (sync/async, "
         "mapped/plain), rejected commits, listing/lookup/temp area afterwards.",
    note=TB + "the async drop order / detached blocking task that removes the temp file is runtime behaviour: the harness "
         "polls until the temp file is gone (deadline 30 s).",
    technique="Lean 4 proof (AllCalls area analysis + frame lemmas) + differential correspondence"),
 "C16": dict(
    text="Theorems (Props/C16): whenever a write without declared integrity answers ok (healthy or under any faults) the "
         "address is [algo, base64(H algo data)] for the concatenation of the chunks - independent of key, chunking, entry "
         "point, flavour and prior state; in a valid store whatever sits at an address has that digest, republishing equal "
         "bytes leaves the copy byte-identical; content paths of different algorithms are disjoint and an address "
         "determines (algorithm, digest). 'Standard digest' is the correspondence claim: returned integrity vs hashlib.",
    note=TB + "SHA-1/256/384/512 are compared with hashlib and with the Lean implementation; XXH3 has no independent "
         "implementation here and is exercised through the library only.",
    technique="Lean 4 proof (wpD postcondition + path injectivity) + differential correspondence against hashlib"),
})

CLAIMS.update({
 "C09": dict(
    text="Theorems (Props/C09): removing a key only ever aims at the index area (content untouched in healthy run, at every "
         "kill point, under every fault), appends exactly one tombstone, after which that key - and only that key - is not "
         "found, and buckets of other keys are not touched; remove_hash aims one mutating call at exactly that content "
         "path and on success it is absent; remove_fully aims only at the current entry's content path and the key's "
         "bucket; clearing removes everything below each child and stays inside the cache. Props/C09x (Lemmas/ListRefine): "
         "remove_fully refines 'drop the key's whole bucket and the content it named'; clear leaves the empty cache, from "
         "which every operation sequence again behaves like the abstract map; the extended refinement theorem covers "
         "listings, full removals and clears. Correspondence: histories mixing "
         "writes with all four removals over shared-content keys, judged by a dictionary model and the Lean model.",
    note=TB + "remove_fully of a key whose bucket also holds another key's records (SHA-1 collision or foreign writer) "
         "removes those too - the stated exception; the order in which clear removes children is readdir order (not modelled).",
    technique="Lean 4 proof (AllCalls frame analysis + index algebra) + differential correspondence"),
 "C11": dict(
    text="Theorems (Props/C11): the record of a successful keyed write classifies to exactly the supplied fields; a lookup "
         "of the bucket such a write leaves returns key, integrity, explicit timestamp, size (declared, else byte count), "
         "JSON metadata (else null) and raw metadata verbatim; the default timestamp is the clock call's answer; the "
         "record text lists the six fields in fixed order; END TO END (write_then_metadata): after an ok keyed write, for every "
         "flavour / options / chunking / initial state, the lookup returns exactly the supplied key, digest, time stamp "
         "(explicit, else a u128 clock answer), size (declared, else byte count), JSON metadata and raw metadata. Correspondence: type-directed JSON, 64-bit integer edges, "
         "control/non-ASCII strings, 128-bit times, all byte values as raw metadata, through every write entry point and "
         "both flavours, field-by-field monitor; nesting depths around serde_json's limit (known finding F9).",
    note=TB + "the JSON half of 'returned exactly' is a theorem over the model's serde_json (Json.parse_render: every "
         "well-formed value nested < 128 levels incl. all integers, floats, strings; Rec.dec_enc for the record line), "
         "instantiated as metadata_returned_cacache; the proof's one forced hypothesis (metadata nested <= 126 levels) is "
         "exactly where the real code fails (known finding F9). That Json.lean IS serde_json is validated by ~45k "
         "differential cases and by this correspondence.",
    technique="Lean 4 proof (JSON / record-line round trip + record classification + index algebra) + differential correspondence"),
 "C12": dict(
    text="Theorems (Props/C12): in the model, lookups, reads, extractions, removals, listing and index insertion have no "
         "flavour parameter at all; for the writers (the only flavour-dependent programs) both flavours return the same "
         "integrity whenever both answer ok (under any faults), leave the same record in the bucket and keep the store "
         "valid at every kill point; TOTAL CORRECTNESS (flavour_assignment_irrelevant, via cache_refines_map): any program of "
         "keyed writes of every shape, reads, index and by-address operations, of any length, run from a healthy cache with "
         "ANY assignment of flavours to its steps (all sync, all async, mixed in any pattern) returns at every step what the "
         "program as written returns and leaves the same abstract cache (index map + content store). Tie: every program executed as all-sync, all-async, sync-then-async and async-then-sync "
         "on the async-std AND the tokio binary (8 executions), canonical result streams equal step by step.",
    note=TB + "the three real builds are related to the one model by three correspondences; that is where the claim gets "
         "its content. Error KINDS under injected faults may differ between flavours (async close reports the later "
         "existence check's error) - outside the statement's 'success/error classification' only in the io sub-kind.",
    technique="Lean 4 proof (flavour-free postconditions) + 8-way differential execution"),
 "C17": dict(
    text="Theorems (Props/C17): the path and record layout stated literally (index-v5/<sha1 hex 2/2/rest>, "
         "content-v2/<algo>/<hex 2/2/rest>, newline + hex sha256 + tab + six-field JSON; tombstone = null integrity); "
         "bucket and content path maps are injective up to digest equality; index, content and temp areas are disjoint; "
         "decoding a bucket of framed records yields exactly those records. The Lean driver and lib/vf/layout.py are two "
         "independent implementations of the format, exercised in both directions against the library.",
    note=TB + "decode(encode) is proved for the real line format (decode_encode_line, decode_encode_bucket_cacache; see C11); "
         "XXH3 digests enter the model through an oracle table filled from the real crate.",
    technique="Lean 4 proof (format definitions + injectivity) + two independent implementations, both directions"),
 "C19": dict(
    text="Theorems (Props/C19): every mutating call of a link commit is aimed inside the cache (a target outside is never a "
         "target of any call, under any faults); the link text is the absolute path of the target as seen from the calling "
         "process; the commit issues no call that could copy data into the cache; reads through a link are verified like "
         "any read (C01) whatever the target holds now; reading follows the link; a wrong declared size is rejected. TOTAL "
         "CORRECTNESS of the commit (Lemmas/LinkRefine, healthy run, by address and keyed): a free address gets the link; "
         "regular content at the address is kept, never replaced by a link; an EARLIER LINK at the address is kept when it already "
         "leads to the very file being linked (relink_same_file_kept: nothing is written, tmp untouched) and otherwise - "
         "stale, dangling, leading elsewhere - replaced by a link to the target just read (temp link + rename, nothing left "
         "in tmp, nothing else changed); in both cases read_hash of the returned address and read of the key answer exactly "
         "the target's bytes (F18). WITH DECLARED OPTIONS (Props/C19x, Lemmas/LinkDecl, each of the four situations at the address): "
         "a wrong declared size / integrity is rejected with exactly the writer's error and no lookup changes; matching "
         "declarations commit, record the target's true size and read back; the commit answers ok IFF the link phase is ok and "
         "both declarations are absent or hold (link_commit_decision, lcommit_ok_iff). "
         "Correspondence: absolute/relative targets, partial reads before commit, wrong declarations, pre-existing "
         "content, an address already linked from another file that was since removed / rewritten / kept, target "
         "modified/removed afterwards.",
    note=TB + "symlink resolution is modelled for links at the final path component; the process working directory is the "
         "scratch root in both harness and model.",
    technique="Lean 4 proof (AllCalls analysis + run semantics) + differential correspondence"),
 "C20": dict(
    text="Theorems (Props/C20): the Rust panics that exist are explicit results in the model; lookup, index insert/remove "
         "and listing never produce one whatever the files hold; every operation taking an integrity argument is panic-free "
         "for well-formed arguments whatever the filesystem answers; writers are panic-free for every option/chunk "
         "combination (zero length, several chunks for a declared size, more/fewer bytes than declared) given digests of "
         ">= 2 bytes; reads by key are panic-free when the record's integrity is a usable address. All model functions are "
         "total. Tie: every call of every stream runs under catch_unwind + a 60 s watchdog; hostile on-disk states.",
    note=TB + "known finding F13 (foreign record with undecodable digest) is exactly the excluded case of read_no_panic; "
         "aborts (allocation failure, stack overflow) and runtime dead-locks are visible to the watchdog only.",
    technique="Lean 4 proof (panic results excluded over all call answers; totality) + panic catcher and watchdog on every call"),
})

# further legs / generators of the tie, added after the seeded-change rounds 4 and 5 (DESIGN.md §10)
MORE_TIE = {
 "C02": " Also: writers resumed after a real short write (file-size limit inside the process, lifted again), round trips across "
        "clear / remove_fully / directory removal followed by the same bytes again, system-call skeleton of the index append.",
 "C03": " Also: a caller that carries on with a writer after a failed write (persistent-caller fault leg, header/body/trailer "
        "chunkings), write futures dropped in flight (wwrite_cancel).",
 "C04": " Also: rewrites of a key that change only the attachments (metadata / raw metadata / time of the same width).",
 "C05": " Also: every hostile key written, looked up, removed, re-written, removed fully in both flavours; attachment-only "
        "rewrites; buckets and directories that disappear and return between two lookups of one process.",
 "C06": " Also: buckets laid out so that a multi-byte character straddles byte 64 of a line and every block size 4-64 KiB; "
        "a lookup, damage of the same length that keeps the checksum field, the lookup again.",
 "C07": " COLD START RACE: 8 processes make their first writes into one cold cache at the same instant, all must succeed. "
        "Kill / observer sweeps go system-call class by class with strace attached after start-up (attach mode).",
 "C09": " Also: full removal of an entry whose declared integrity names several algorithms while the same bytes are stored "
        "separately under the weaker one; the hostile-key matrix.",
 "C10": " Also: nine odd integrity texts x five bucket shapes, lookup vs listing item by item; block-boundary buckets; "
        "listings repeated in one process after buckets were replaced by others of the same length.",
 "C11": " Also: attachment-only rewrites of the same width, observed by both flavours and the listing after every step.",
 "C13": " Also: persistent-caller leg (the caller continues after a failed write), resumed-writer leg (real short write), "
        "deterministic flavour x operation coverage of the short-write leg, failing directory reads in clear (F26).",
 "C15": " Also: a cache directory whose name is not UTF-8 (nothing may be created next to it).",
 "C16": " Also: resumed-writer and persistent-caller legs (the digest must cover exactly the bytes stored).",
 "C17": " Also: reference entries with multi-algorithm integrities, attachment-only rewrites, block-boundary buckets.",
 "C19": " Also: relative targets linked from two different working directories within one process (link_to_cd).",
}
for _k, _v in MORE_TIE.items():
    CLAIMS[_k]["text"] += _v

# statements added after an independent audit of the Props modules (vacuous / trivial ones replaced)
MORE_THM = {
 "C02": " A WRITER HELD OPEN across other operations (C02x): from any healthy state in which its temp file is untouched the commit does "
        "exactly what it would have done straight away on the state it finds (held_commit_refines); every operation sequence "
        "without clear leaves a held temp file alone (ops_preserve_tmp); composed: held_across_ops; by-address writers likewise; after a clear "
        "in between the commit answers the I/O not-found error and nothing comes back (nothing_comes_back); two held writers of one "
        "key committed in either order: the last commit decides (held_two_writers).",
 "C01": " FROM OPEN ON: whatever open / open_hash answered ok, any sequence of reads hands out a prefix of the content file as it "
        "was at open and check() is ok only if the bytes pass the check of the requested address / found entry "
        "(read_stream_sound_from_open, _from_openHash); a keyed read that is ok under any fault plan met no fault and returns "
        "bytes passing the check of the entry the bucket holds (read_fault_sound).",
 "C08": " A by-address write with a wrong declared size: exactly the size error, every lookup as before, the store changed at "
        "exactly the address of the bytes fed, healthy, tmp clean (putHash_wrong_size_total). A declared integrity on a writer HELD OPEN "
        "across other operations: unsatisfied => the integrity error and every lookup as found, satisfied => the key maps to the "
        "declared entry (held_commit_declared).",
 "C13": " remove_fully under any fault plan, then retried: the retry ends exactly where an uninterrupted removal ends "
        "(removeFully_fault_retry).",
 "C14": " The abandon program as a whole (open, any writes, drop), from any filesystem on which it could be opened: nothing at "
        "its temp path, the rest of tmp as it was, nothing else changed but directories (abandon_leaves_no_tmp).",
 "C18": " Missing content answers exactly the I/O not-found error, a missing key the entry-not-found error (never an I/O error), "
        "both with the filesystem unchanged; unchecked copy onto an existing file replaces its bytes, unchecked hard link onto "
        "anything existing answers already-exists and changes nothing (C18x).",
 "C03": " PROGRAM LEVEL: every call of a whole writer (writeStream / write / write_hash) that can create or fill a file in the "
        "content area is a rename onto that path (writeStream_only_rename_publishes).",
 "C06": " For cacache's codec: a record the reader reports is spelled out by a line `hex(sha256 json) TAB json` of the file "
        "(no_forgery_cacache, decLine_spells). A destroyed newline fuses two records into a line with two TABs that does not "
        "decode, and the bucket loses exactly these two (fused_line_undecodable, destroyed_newline_exact).",
 "C05": " Representation independence (Props/C05x, Lemmas/SpecLaws): two healthy caches with the same key -> entry and "
        "address -> bytes maps answer every history identically and reach the same maps again, also with listings, full "
        "removals and clear in the history (lookups_depend_on_abstraction_only, _ext). Earlier entries never resurface: once a key "
        "is inserted or removed again, every later history answers as if nothing had been done to it before, although the "
        "shadowed record is still in the bucket (shadowed_entry_never_resurfaces).",
 "C07": " No finished insertion is lost: in the serial history the last operation on the key is that insertion or a later "
        "one, and lookups answer accordingly (no_finished_insert_lost). exists_hash next to any whole writer answers as before or "
        "as after it; two by-address writers of any data serialize with no collision hypothesis.",
 "C09": " Under every fault plan a full removal changes only the key's bucket and the found entry's content file, and only by "
        "removing them (removeFully_changes_only, removeFully_only_removes). Repeating a removal removes nothing more "
        "(Lemmas/SpecLaws): a second remove_fully of the same key leaves index, store, bucket files and directories as the "
        "first left them and answers the NotFound of the missing bucket after an ok; a second clear answers ok on the empty "
        "cache; the abstract removal and clear are idempotent for every abstract state (removeFully_idempotent, "
        "removeFully_again_answers_notFound, clear_idempotent, spec_removals_idempotent). Index operations on two different "
        "keys commute on every healthy cache: same answers, same abstract cache, in either order "
        "(index_ops_on_different_keys_commute).",
 "C10": " A listing never changes what the cache holds, in whole histories: deleting every listing and read from any history "
        "of writes, removals, full removals and clear leaves the final abstract state unchanged "
        "(listing_does_not_mutate_any_history, Lemmas/SpecLaws).",
 "C15": " HISTORY LEVEL (Props/C15x, Lemmas/SpecLaws): deleting every keyed read, lookup, by-address read and exists from any "
        "history on a healthy cache leaves every other answer and the final abstract cache unchanged "
        "(reads_do_not_mutate_any_history). PROGRAM LEVEL: every path argument of find / insert / delete for a key is its bucket path or that path's parent; "
        "keys with equal SHA-1 touch the same index paths and nothing else of the key reaches a path (index_ops_paths, "
        "same_sha1_same_paths).",
 "C16": " From any healthy cache, writing the same bytes twice (any flavours, any keys) leaves the file at the address "
        "byte-identical and the abstract store unchanged by the second write (rewrite_same_bytes). THE DRIVER'S DIGEST FUNCTION: Sha.lean's SHA-1/256/384/512 return exactly 20/32/48/64 bytes for every input, so the configuration compared with the code satisfies HexLen (hexLen_mkCfg) and the refinement theorems hold for it without that hypothesis (C16x: address_shape_driver, cache_refines_map_driver, ...); kernel-checked known-answer tests of Sha.lean (tests, not the claim). Whenever the address of some bytes already holds them (written by any earlier call, any number of operations ago), a "
        "by-address write of the same bytes leaves every address -> bytes mapping as it was (rewrite_is_noop, Lemmas/SpecLaws).",
 "C19": " A wrong declared size answers exactly the size error when the link phase succeeds, the link phase's own I/O error "
        "otherwise (linkto_size_enforced, linkto_size_exact).",
 "C20": " KEYED operations: under every fault plan read / streamed open / extraction / remove_fully answer the panic result IF "
        "AND ONLY IF the lookup found an entry whose integrity is not a usable address (read_panic_iff, *_panic_only_if - the "
        "excluded case is known finding F13), never for a bucket all of whose records carry >= 4 hex digits (read_no_panic, "
        "with an instance); a listing never contains a panic item (ls_no_panic); clear, lopen, the link commit and every "
        "operation taking an integrity argument with a usable address are panic-free (lcommit_no_panic_run: the model's "
        "own `| _ => panic` arm is unreachable in every run and under every fault plan).",
}
for _k, _v in MORE_THM.items():
    CLAIMS[_k]["text"] += _v

PENDING = {}
