"""An independent (Python, hashlib/json) implementation of the cacache on-disk format.
Used by generators (to aim damage at the right files), by monitors (to judge the real library's
output without the model) and as the 'other implementation' of C17."""
import hashlib, base64, json

ALGOS = ["sha1", "sha256", "sha384", "sha512"]          # algorithms with an independent implementation (hashlib)
ALL_ALGOS = ALGOS + ["xxh3"]                              # xxh3: digests come from the library itself (oracle)

_XX = {}


def xxh3(data: bytes) -> bytes:
    """XXH3-128 through the harness' `digest` op (no independent implementation available offline)."""
    if data not in _XX:
        import subprocess, tempfile, shutil, os
        from . import common as C
        d = tempfile.mkdtemp(prefix="xx", dir=C.scratch_root())
        p = subprocess.run([C.drive_bin("async-std"), os.path.join(d, "s")], input=f"digest xxh3 x{data.hex()}\n".encode(),
                           stdout=subprocess.PIPE, stderr=subprocess.DEVNULL)
        shutil.rmtree(d, ignore_errors=True)
        _XX[data] = bytes.fromhex(p.stdout.decode().split()[1][1:])
    return _XX[data]


def digest(algo: str, data: bytes) -> bytes:
    if algo == "xxh3":
        return xxh3(data)
    return hashlib.new(algo, data).digest()


def sri_of(algo: str, data: bytes) -> str:
    return f"{algo}-{base64.b64encode(digest(algo, data)).decode()}"


def sri_parse(text: str):
    """[(algo, b64digest)] sorted like ssri (stable, by algorithm rank) or None."""
    rank = {"sha512": 0, "sha384": 1, "sha256": 2, "sha1": 3, "xxh3": 4}
    out = []
    for tok in text.split():
        parts = tok.split("-")
        if len(parts) < 2 or parts[0] not in rank:
            return None
        out.append((parts[0], parts[1]))
    out.sort(key=lambda h: rank[h[0]])
    return out


def content_rel(sri_text: str) -> str:
    hs = sri_parse(sri_text)
    algo, b64 = hs[0]
    hexd = base64.b64decode(b64, validate=True).hex()
    return f"content-v2/{algo}/{hexd[0:2]}/{hexd[2:4]}/{hexd[4:]}"


def bucket_rel(key: bytes) -> str:
    h = hashlib.sha1(key).hexdigest()
    return f"index-v5/{h[0:2]}/{h[2:4]}/{h[4:]}"


def render_float(x: float) -> str:
    """serde_json's float text: shortest round-trip digits, plain notation for decimal exponents
    -5 < kk <= 16, otherwise `d[.ddd]e+x` / `e-x` (the same rules as `Json.renderDec` in the Lean model)."""
    import decimal
    if x == 0:
        return "-0.0" if str(x).startswith("-") else "0.0"
    sign, digits, k = decimal.Decimal(repr(x)).as_tuple()
    digits = list(digits)
    while len(digits) > 1 and digits[-1] == 0:
        digits.pop(); k += 1
    ds = "".join(map(str, digits))
    n = len(ds); kk = n + k
    if 0 <= k and kk <= 16:
        body = ds + "0" * k + ".0"
    elif 0 < kk <= 16:
        body = ds[:kk] + "." + ds[kk:]
    elif -5 < kk <= 0:
        body = "0." + "0" * (-kk) + ds
    else:
        ex = kk - 1
        es = ("e+" if ex >= 0 else "e-") + str(abs(ex))      # the float writer serde_json uses prints `e+28` / `e-7`
        body = (ds if n == 1 else ds[0] + "." + ds[1:]) + es
    return ("-" if sign else "") + body


def render_json(v) -> str:
    """serde_json::to_string (objects sorted by key *bytes*, floats as ryu prints them)."""
    if isinstance(v, float):
        return render_float(v)
    if isinstance(v, dict):
        items = sorted(v.items(), key=lambda kv: kv[0].encode())
        return "{" + ",".join(json.dumps(k, ensure_ascii=False) + ":" + render_json(x) for k, x in items) + "}"
    if isinstance(v, list):
        return "[" + ",".join(render_json(x) for x in v) + "]"
    return json.dumps(v, ensure_ascii=False)


def record_json(key: str, integrity, time: int, size: int, metadata, raw) -> str:
    raw_txt = "null" if raw is None else "[" + ",".join(str(b) for b in raw) + "]"
    integ = "null" if integrity is None else json.dumps(integrity, ensure_ascii=False)
    return ('{"key":' + json.dumps(key, ensure_ascii=False) + ',"integrity":' + integ +
            ',"time":' + str(time) + ',"size":' + str(size) + ',"metadata":' + render_json(metadata) +
            ',"raw_metadata":' + raw_txt + "}")


def frame(json_text: str) -> bytes:
    j = json_text.encode()
    return b"\n" + hashlib.sha256(j).hexdigest().encode() + b"\t" + j


def decode_bucket(data: bytes):
    """Records of a bucket file as this reference reads the format: list of dicts."""
    out = []
    segs = data.split(b"\n")
    for i, seg in enumerate(segs):
        last = i == len(segs) - 1
        if last and seg == b"":
            continue
        try:
            s = seg.decode("utf-8")
        except UnicodeDecodeError:
            continue
        if not last and s.endswith("\r"):
            s = s[:-1]
        parts = s.split("\t")
        if len(parts) != 2:
            continue
        if hashlib.sha256(parts[1].encode()).hexdigest() != parts[0]:
            continue
        try:
            v = json.loads(parts[1])
        except Exception:
            continue
        if isinstance(v, dict) and isinstance(v.get("key"), str):
            out.append(v)
    return out


def lookup(records, key: str):
    """Last record for `key` decides: dict (live) or None."""
    cur = None
    for r in records:
        if r.get("key") == key:
            if r.get("integrity") is None:
                cur = None
            elif sri_parse(r["integrity"]) is not None:
                cur = r
    return cur


def record_json_styled(key, integrity, time, size, metadata, raw, style):
    """The same record in spellings another implementation of the format might use (all valid JSON,
    all accepted by a reader that checksums the *text on disk*): python-style separators and \\u
    escapes, insertion-ordered metadata keys, a different field order, an extra field."""
    import json as _j
    rawv = None if raw is None else list(raw)
    fields = [("key", key), ("integrity", integrity), ("time", time), ("size", size), ("metadata", metadata),
              ("raw_metadata", rawv)]
    if style == "python":          # ", " / ": " separators, non-ASCII as \uXXXX, insertion order
        return _j.dumps(dict(fields))
    if style == "unsorted":        # compact, but metadata keys in insertion (reverse-sorted) order
        def rend(v):
            if isinstance(v, dict):
                items = sorted(v.items(), key=lambda kv: kv[0].encode(), reverse=True)
                return "{" + ",".join(_j.dumps(k, ensure_ascii=False) + ":" + rend(x) for k, x in items) + "}"
            if isinstance(v, list):
                return "[" + ",".join(rend(x) for x in v) + "]"
            return _j.dumps(v, ensure_ascii=False)
        return "{" + ",".join(_j.dumps(k) + ":" + rend(v) for k, v in fields) + "}"
    if style == "reordered":       # fields in another order plus an unknown field
        f2 = [fields[4], fields[0], ("x-extra", [1, {"a": None}]), fields[3], fields[2], fields[1], fields[5]]
        return "{" + ",".join(_j.dumps(k) + ":" + render_json(v) for k, v in f2) + "}"
    if style == "spaced":
        return "{ " + " , ".join(_j.dumps(k) + " : " + render_json(v) for k, v in fields) + " }"
    return record_json(key, integrity, time, size, metadata, raw)
